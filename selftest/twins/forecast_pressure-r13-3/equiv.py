"""Equivalence driver for forecast_pressure refactorings."""
from __future__ import annotations

import os
import sys

import matplotlib

matplotlib.use("Agg")
import matplotlib.pyplot as plt
import numpy as np
import pandas as pd
from lmfit import Parameters

import bluebonnet.plotting  # noqa: F401  registers the squareroot scale
from bluebonnet.flow import FlowProperties, SinglePhaseReservoir
from bluebonnet.forecast import fit_production_pressure, plot_production_comparison
from bluebonnet.forecast import forecast_pressure as fp

DATA = os.environ.get("BB_DATA", "/tmp/twin13_forecast_pressure/tests/data")
out = []


def fmt(x):
    if isinstance(x, (float, np.floating)):
        return repr(float(x))
    if isinstance(x, (int, np.integer)):
        return repr(int(x))
    if isinstance(x, np.ndarray):
        return "[" + ",".join(fmt(v) for v in x.ravel()) + "]" + str(x.dtype) + str(x.shape)
    return repr(x)


def record(label, fn):
    try:
        res = fn()
    except Exception as e:  # noqa: BLE001
        out.append(f"{label}: EXC {type(e).__name__}")
    else:
        out.append(f"{label}: {res}")


pvt = pd.read_csv(os.path.join(DATA, "pvt_gas_HAYNESVILLE SHALE_20.csv"))
pi, pf, nt = 5000.0, 500.0, 120
ts = np.linspace(0, np.sqrt(6.0), nt) ** 2
pv = np.full(nt, pf)
pv[nt // 4 : nt // 2] /= 2.0
pv[nt // 2 :] /= 4.0
res = SinglePhaseReservoir(40, pf, pi, FlowProperties(pvt, pi))
res.simulate(ts, pv)
rf = res.recovery_factor()
prod = pd.DataFrame({"Days": ts * 180.0, "Gas": rf, "Pressure": pv, "Extra": 1.0})
prod_nan = prod.copy()
prod_nan.loc[[5, 17, 40], "Pressure"] = np.nan
prod_nan.loc[[7, 8], "Gas"] = 0.0
prod_int = prod.copy()
prod_int["Pressure"] = prod_int["Pressure"].astype(int)
prod_idx = prod_nan.set_index(np.arange(nt)[::-1] * 3)


def fit_summary(r):
    p = r.params
    return ";".join(
        f"{k}={fmt(p[k].value)}|{fmt(p[k].min)}|{fmt(p[k].max)}" for k in p
    ) + f";nfev={r.nfev};resid={fmt(np.asarray(r.residual))}"


def given_params():
    p = Parameters()
    p.add("tau", value=400.0, min=30.0, max=2000.0)
    p.add("M", value=1.5, min=0.5, max=10.0)
    p.add("p_initial", value=5200.0, min=1000.0, max=12000.0)
    return p


for name, df in [("prod", prod), ("nan", prod_nan), ("int", prod_int), ("idx", prod_idx)]:
    for fz in (True, False):
        for fw in (None, 1, 5):
            if name == "nan" and not fz:
                n_it = 2
            else:
                n_it = 3
            record(
                f"fit {name} fz={fz} fw={fw}",
                lambda: fit_summary(
                    fit_production_pressure(
                        df, pvt, pi, filter_window_size=fw, filter_zero_prod_days=fz, n_iter=n_it
                    )
                ),
            )
record(
    "fit given params",
    lambda: fit_summary(fit_production_pressure(prod, pvt, pi, n_iter=3, params=given_params())),
)
record(
    "fit bounds",
    lambda: fit_summary(
        fit_production_pressure(prod, pvt, 6000.0, None, 9000.0, 50.0, True, 2)
    ),
)
# inputs unchanged?
record("prod untouched", lambda: fmt(prod.to_numpy()))

# error behaviour
record("fit missing Gas", lambda: fit_production_pressure(prod.drop(columns="Gas"), pvt, pi, n_iter=2))
record("fit missing Pressure", lambda: fit_production_pressure(prod.drop(columns="Pressure"), pvt, pi, n_iter=2))
record("fit missing Days", lambda: fit_production_pressure(prod.drop(columns="Days"), pvt, pi, n_iter=2))
record("fit missing Days nofilter", lambda: fit_production_pressure(prod.drop(columns="Days"), pvt, pi, filter_zero_prod_days=False, n_iter=2))
record("fit missing all", lambda: fit_production_pressure(prod[["Extra"]], pvt, pi, n_iter=2))
record("fit empty", lambda: fit_production_pressure(prod.iloc[:0], pvt, pi, n_iter=2))
record("fit one row", lambda: fit_summary(fit_production_pressure(prod.iloc[3:4], pvt, pi, n_iter=2)))
record("fit two rows", lambda: fit_summary(fit_production_pressure(prod.iloc[3:5], pvt, pi, n_iter=2)))
record("fit all zero gas", lambda: fit_production_pressure(prod.assign(Gas=0.0), pvt, pi, n_iter=2))
record("fit window 0", lambda: fit_production_pressure(prod, pvt, pi, filter_window_size=0, n_iter=2))
record("fit window str", lambda: fit_production_pressure(prod, pvt, pi, filter_window_size="a", n_iter=2))
record("fit dict", lambda: fit_production_pressure({"Days": ts, "Gas": rf, "Pressure": pv}, pvt, pi, n_iter=2))
record("fit dict nofilter", lambda: fit_production_pressure({"Days": ts, "Gas": rf, "Pressure": pv}, pvt, pi, filter_zero_prod_days=False, n_iter=2))
record("fit None", lambda: fit_production_pressure(None, pvt, pi, n_iter=2))
record("fit bad pvt", lambda: fit_production_pressure(prod, pvt[["pressure"]], pi, n_iter=2))
record("fit pimax below", lambda: fit_summary(fit_production_pressure(prod, pvt, pi, pressure_imax=100.0, n_iter=2)))
bad = Parameters()
bad.add("tau", value=300.0)
record("fit params missing M", lambda: fit_production_pressure(prod, pvt, pi, n_iter=2, params=bad))
record("fit str pressure", lambda: fit_production_pressure(prod.assign(Pressure="x"), pvt, pi, n_iter=2))

rec = prod[["Days", "Gas", "Pressure"]].to_records(index=False)
record("fit recarray", lambda: fit_summary(fit_production_pressure(rec, pvt, pi, n_iter=2)))
record("fit recarray nofilter", lambda: fit_summary(fit_production_pressure(rec, pvt, pi, filter_zero_prod_days=False, filter_window_size=3, n_iter=2)))
record("fit object gas", lambda: fit_summary(fit_production_pressure(prod.astype({"Gas": object}), pvt, pi, n_iter=2)))
record("fit Int64 NA", lambda: fit_production_pressure(prod_int.astype({"Pressure": "Int64"}).mask(prod_int.index == 4), pvt, pi, filter_zero_prod_days=False, n_iter=2))
# objective function directly
t = np.arange(nt)
record("obj", lambda: fmt(fp._obj_function(given_params(), t, np.cumsum(rf), pvt, pv)))
record("obj scalar p", lambda: fmt(fp._obj_function(given_params(), t, np.cumsum(rf), pvt, 700.0)))
record("obj missing", lambda: fp._obj_function(bad, t, np.cumsum(rf), pvt, pv))
record("obj dict", lambda: fp._obj_function({"tau": 1.0}, t, np.cumsum(rf), pvt, pv))
record("obj short p", lambda: fp._obj_function(given_params(), t, np.cumsum(rf), pvt, pv[:5]))


def plot_summary(df, **kw):
    p = Parameters()
    p.add("M", 1.3)
    p.add("tau", 420)
    p.add("p_initial", pi)
    fig, (a1, a2) = plot_production_comparison(df, pvt, p, **kw)
    parts = []
    for ax in (a1, a2):
        for ln in ax.get_lines():
            parts.append(ln.get_label())
            parts.append(ln.get_linestyle())
            parts.append(fmt(np.asarray(ln.get_xdata(), dtype=float)))
            parts.append(fmt(np.asarray(ln.get_ydata(), dtype=float)))
        parts.append(ax.get_xlabel() + ax.get_ylabel() + ax.get_xscale())
        parts.append(repr(ax.get_xlim()) + repr(ax.get_ylim()))
        parts.append(repr([t_.get_text() for t_ in ax.get_legend().get_texts()]))
    parts.append(repr(tuple(fig.get_size_inches())))
    plt.close(fig)
    return "|".join(parts)


for name, df in [("prod", prod), ("nan", prod_nan), ("int", prod_int), ("idx", prod_idx)]:
    for fz in (True, False):
        for fw in (None, 1, 4):
            record(
                f"plot {name} fz={fz} fw={fw}",
                lambda: plot_summary(df, filter_window_size=fw, filter_zero_prod_days=fz, well_name="W-" + name),
            )
record("plot default name", lambda: plot_summary(prod))
record("plot missing Gas", lambda: plot_summary(prod.drop(columns="Gas")))
record("plot missing Pressure", lambda: plot_summary(prod.drop(columns="Pressure"), filter_zero_prod_days=False))
record("plot missing Days", lambda: plot_summary(prod.drop(columns="Days")))
record("plot empty", lambda: plot_summary(prod.iloc[:0]))
record("plot one row", lambda: plot_summary(prod.iloc[2:3]))
record("plot window 0", lambda: plot_summary(prod, filter_window_size=0))
record("plot dict", lambda: plot_summary({"Days": ts, "Gas": rf, "Pressure": pv}))
record("plot recarray", lambda: plot_summary(rec))
record("plot recarray nofilter", lambda: plot_summary(rec, filter_zero_prod_days=False, filter_window_size=3))
record("plot bad params", lambda: plot_production_comparison(prod, pvt, bad))
record("plot None", lambda: plot_production_comparison(None, pvt, given_params()))
plt.close("all")
record("module names", lambda: sorted(n for n in ("fit_production_pressure", "plot_production_comparison", "_obj_function") if hasattr(fp, n)))

with open(sys.argv[1], "w") as fh:
    fh.write("\n".join(out) + "\n")
