"""Equivalence probe for twin3: build_pvt_gas integrates through pseudopressure()."""
import os
import sys
import warnings

import numpy as np
import pandas as pd

warnings.simplefilter("ignore")
import bluebonnet.fluids as fluids
from bluebonnet.fluids import fluid as fluid_mod
from bluebonnet.fluids.fluid import build_pvt_gas, pseudopressure

DATA = os.environ.get("BB_DATA", "/tmp/twin11_waterfluid/tests/data")
out = []


def show(x):
    if isinstance(x, (float, np.floating)):
        return type(x).__name__ + repr(float(x))
    if isinstance(x, pd.DataFrame):
        return ("Frame" + repr(list(x.columns)) + repr([str(d) for d in x.dtypes]) + repr(list(x.index[:3]))
                + repr(x.shape) + "".join("|" + show(x[c].to_numpy()) for c in x.columns))
    if isinstance(x, pd.Series):
        return "Series" + show(x.to_numpy()) + repr(list(x.index[:3]))
    if isinstance(x, np.ndarray):
        return f"nd{x.shape}{x.dtype}[" + ",".join(show(v) for v in x.ravel().tolist()) + "]"
    if isinstance(x, (list, tuple)):
        return type(x).__name__ + "[" + ",".join(show(v) for v in x) + "]"
    return type(x).__name__ + ":" + repr(x)


def probe(label, f, *a, **k):
    try:
        r = show(f(*a, **k))
    except BaseException as e:  # noqa: BLE001
        r = "EXC " + type(e).__name__
    out.append(f"{label} -> {r}")


base = {"N2": 0.01, "H2S": 0.0, "CO2": 0.02, "Gas Specific Gravity": 0.7,
        "Reservoir Temperature (deg F)": 200.0}


def gv(**kw):
    d = dict(base)
    for k, v in kw.items():
        d[{"sg": "Gas Specific Gravity", "T": "Reservoir Temperature (deg F)"}.get(k, k)] = v
    return d


gases = [base, gv(N2=0.0, CO2=0.0), gv(H2S=0.05, CO2=0.1, N2=0.03), gv(sg=0.6, T=120), gv(sg=0.85, T=350.0),
         gv(sg="0.7"), gv(sg=np.float64(0.65)), gv(T=400), gv(T="200"), gv(T=None), gv(sg=None),
         gv(N2=None), gv(N2=-0.1), gv(N2=0.6, CO2=0.6), gv(sg=0.0), gv(sg=-0.5), gv(T=-460.0), gv(T=float("nan")),
         gv(sg=float("nan")), gv(T=np.array([200.0])), pd.Series(base), {}, {"N2": 0.0},
         {k: v for k, v in base.items() if k != "Reservoir Temperature (deg F)"},
         {k: v for k, v in base.items() if k != "Gas Specific Gravity"}, None, [1, 2, 3]]
dryness = ["dry gas", "wet gas", "Dry Gas", "", None, 3]
maxp = [10, 10.0, 10.5, 20.0, 20.5, 30.5, 45, 200.0, 1000, 5, 0, -1, float("nan"), None, "100", np.float64(60.5),
        float("inf")]
for i, g in enumerate(gases):
    for j, d in enumerate(dryness):
        for k, m in enumerate(maxp):
            if (i < 5 and j < 2) or (j < 1 and k in (3, 5, 7)) or (i < 1 and k in (3, 5)):
                if m == float("inf"):
                    continue
                probe(f"build g#{i} d#{j} m#{k}", build_pvt_gas, g, d, m)
probe("build default max (hi P rows)", lambda: build_pvt_gas(base, "dry gas").iloc[[0, 1, 2, 700, 1397, 1398]])
probe("build default shape", lambda: build_pvt_gas(gv(sg=0.8, T=300.0), "wet gas"))
probe("build kw", build_pvt_gas, gas_values=base, gas_dryness="wet gas", maximum_pressure=100)
probe("build noargs", build_pvt_gas)
probe("build one", build_pvt_gas, base)
probe("via package", fluids.build_pvt_gas, base, "dry gas", 55.0)

pvt = pd.read_csv(os.path.join(DATA, "pvt_gas.csv"))
P, MU, Z = pvt["P"], pvt["Viscosity"], pvt["Z-Factor"]
cases = {
    "series": (P, MU, Z), "arrays": (P.to_numpy(), MU.to_numpy(), Z.to_numpy()),
    "slice": (P.to_numpy()[5:200:7], MU.to_numpy()[5:200:7], Z.to_numpy()[5:200:7]),
    "one": (np.array([100.0]), np.array([0.02]), np.array([0.9])),
    "two": (np.array([100.0, 200.0]), np.array([0.02, 0.021]), np.array([0.9, 0.88])),
    "empty": (np.array([]), np.array([]), np.array([])),
    "lists": ([100.0, 200.0], [0.02, 0.021], [0.9, 0.88]),
    "list p": ([100.0, 200.0], np.array([0.02, 0.021]), np.array([0.9, 0.88])),
    "list p1": ([100.0], np.array([0.02]), np.array([0.9])),
    "tuple p": ((100.0, 200.0), np.array([0.02, 0.021]), np.array([0.9, 0.88])),
    "list mu": (np.array([100.0, 200.0]), [0.02, 0.021], np.array([0.9, 0.88])),
    "scalars": (100.0, 0.02, 0.9), "scalar mu": (np.array([100.0, 200.0, 400.0]), 0.02, 0.9),
    "mismatch": (np.array([100.0, 200.0, 300.0]), np.array([0.02, 0.021]), np.array([0.9, 0.88])),
    "zero z": (np.array([100.0, 200.0]), np.array([0.02, 0.021]), np.array([0.0, 0.88])),
    "nan": (np.array([100.0, np.nan, 300.0]), np.array([0.02, 0.021, 0.03]), np.array([0.9, 0.88, 0.8])),
    "decreasing": (np.array([300.0, 200.0, 100.0]), np.array([0.02, 0.021, 0.03]), np.array([0.9, 0.88, 0.8])),
    "int p": (np.array([100, 200, 300]), np.array([0.02, 0.021, 0.03]), np.array([0.9, 0.88, 0.8])),
    "2d": (np.array([[100.0, 200.0], [300.0, 500.0]]), np.full((2, 2), 0.02), np.full((2, 2), 0.9)),
    "none": (None, None, None), "str": ("a", "b", "c"),
    "shifted index": (pd.Series([1.0, 2.0, 3.0], index=[5, 6, 7]), pd.Series([0.02] * 3), pd.Series([0.9] * 3)),
    "huge": (np.array([1e307, 1.5e308]), np.array([1.0, 1.0]), np.array([1.0, 1.0])),
}
for name, (a, b, c) in cases.items():
    probe(f"pseudopressure {name}", pseudopressure, a, b, c)
    probe(f"pkg pseudopressure {name}", fluids.pseudopressure, a, b, c)
probe("pseudopressure kw", pseudopressure, z_factor=Z.to_numpy()[:9], pressure=P.to_numpy()[:9], viscosity=MU.to_numpy()[:9])
probe("pseudopressure two args", pseudopressure, P, MU)
# the table's column equals the free function on the same columns
t = build_pvt_gas(base, "dry gas", 500.0)
probe("table vs function", lambda: pseudopressure(t["pressure"].to_numpy(), t["viscosity"].to_numpy(), t["z-factor"].to_numpy()) - t["pseudopressure"].to_numpy())
probe("module names", lambda: sorted(n for n in dir(fluid_mod) if not n.startswith("_")))

with open(sys.argv[1], "w") as fh:
    fh.write("\n".join(out) + "\n")
