"""Equivalence probe for bluebonnet.flow.reservoir (clean vs refactored tree).

Usage: PYTHONPATH=<tree>/src /venv/bin/python equiv.py <outfile>
"""

from __future__ import annotations

import os
import sys
import warnings

import numpy as np
import pandas as pd

warnings.simplefilter("ignore")

from bluebonnet.flow import (  # noqa: E402
    FlowProperties,
    IdealReservoir,
    MultiPhaseReservoir,
    SinglePhaseReservoir,
    TwoPhaseReservoir,
)
from bluebonnet.flow import reservoir as resmod  # noqa: E402

DATA = os.environ.get("BB_DATA", "/tmp/twin2_reservoir/tests/data")
SIG = None  # None -> full repr; integer -> round to that many significant digits

lines: list[str] = []


def fmt_float(v) -> str:
    v = float(v)
    if SIG is None:
        return repr(v)
    return f"{v:.{SIG - 1}e}"


def fmt(obj) -> str:
    if isinstance(obj, BaseException):
        return f"EXC {type(obj).__name__}"
    if obj is None or isinstance(obj, (str, bool)):
        return repr(obj)
    if isinstance(obj, (tuple, list)):
        return "[" + ", ".join(fmt(o) for o in obj) + "]"
    arr = np.asarray(obj)
    if arr.dtype == object:
        return f"<{type(obj).__name__}>"
    if arr.ndim == 0:
        return f"{type(obj).__name__}:{arr.dtype}:" + fmt_float(arr)
    flat = " ".join(fmt_float(v) for v in arr.ravel())
    return f"{type(obj).__name__}:{arr.dtype}:{arr.shape}:{flat}"


def record(label, func, *args, **kwargs):
    try:
        out = func(*args, **kwargs)
    except Exception as e:  # noqa: BLE001
        cause = type(e.__cause__).__name__ if e.__cause__ is not None else "-"
        lines.append(f"{label} -> EXC {type(e).__name__} cause={cause}")
        return None
    lines.append(f"{label} -> {fmt(out)}")
    return out


def state(label, res):
    """Dump the public state a simulation leaves behind."""
    for attr in ("time", "pseudopressure", "recovery"):
        if hasattr(res, attr):
            lines.append(f"{label}.{attr} = {fmt(getattr(res, attr))}")
        else:
            lines.append(f"{label}.{attr} = <unset>")


renamer = {
    "P": "pressure",
    "Z-Factor": "z-factor",
    "Cg": "compressibility",
    "Viscosity": "viscosity",
    "Density": "density",
}
pvt_gas = pd.read_csv(os.path.join(DATA, "pvt_gas.csv")).rename(columns=renamer)
pvt_ideal = pd.read_csv(os.path.join(DATA, "pvt_ideal_gas.csv")).rename(columns=renamer)


class BadAlphaFluid:
    """Fluid whose diffusivity lookup fails -> exercises the 'scaling failed' path."""

    m_i = np.float64(1.0)
    pvt_props = {"m-scaled": np.array([0.0, 1.0]), "density": np.array([0.0, 2.0])}

    @staticmethod
    def m_scaled_func(p):
        return np.asarray(p, dtype=float) / 8000.0

    @staticmethod
    def alpha(m):
        if np.ndim(m) > 0:
            raise ValueError("bad alpha")
        return np.float64(1.0)


def times(end_t, nt):
    return np.linspace(0, np.sqrt(end_t), nt) ** 2


def exercise(label, res, time, sim_kwargs=None, full=True):
    sim_kwargs = sim_kwargs or {}
    record(f"{label}.rf_before", res.recovery_factor)
    record(f"{label}.rf_before_time", res.recovery_factor, time)
    record(f"{label}.interp_before", res.recovery_factor_interpolator)
    record(f"{label}.simulate", res.simulate, time, **sim_kwargs)
    state(f"{label}.after_sim", res)
    f = record(f"{label}.interp_lazy", lambda: type(res.recovery_factor_interpolator()).__name__)
    state(f"{label}.after_interp", res)
    for density in (False, True):
        record(f"{label}.rf(density={density})", res.recovery_factor, density=density)
        record(f"{label}.rf(time,density={density})", res.recovery_factor, time, density)
        record(f"{label}.rf(None,{density})", res.recovery_factor, None, density)
        f = record(f"{label}.interp(density={density})", res.recovery_factor_interpolator)
        if f is not None and callable(f):
            q = np.array([-1.0, 0.0, 1e-6, 0.01, 0.37, 1.0, 5.0, 1e3])
            record(f"{label}.interp_eval", f, q)
            record(f"{label}.interp_eval_scalar", f, 0.123)
            lines.append(f"{label}.interp_attrs = {f.bounds_error!r} {fmt(f.fill_value)}")
    record(f"{label}.fvf_scale", res.fvf_scale)
    if full:
        record(f"{label}.alpha_scaled", res.alpha_scaled, np.linspace(0.0, 1.2, 7))
        record(f"{label}.alpha_scaled_scalar", res.alpha_scaled, 0.5)
    # a second simulation must invalidate the cached recovery
    t2 = time[: max(2, len(time) // 3)] if hasattr(time, "__len__") else time
    record(f"{label}.resimulate", res.simulate, t2, **{k: v[: len(t2)] for k, v in sim_kwargs.items()})
    state(f"{label}.after_resim", res)
    record(f"{label}.rf_after_resim", res.recovery_factor)


def main(out):
    fluid = FlowProperties(pvt_gas, 8000.0)
    fluid_ideal = FlowProperties(pvt_ideal, 6000.0)

    # --- the private matrix builder, called positionally
    for k in (
        np.array([0.3, 0.1, 0.7, 0.25, 2.0]),
        np.array([1e-9, 1e9]),
        np.array([0.5]),
        np.array([np.nan, 1.0, np.inf]),
        np.linspace(0.0, 3.0, 11) ** 3,
    ):
        def build(k=k):
            m = resmod._build_matrix(k)
            return [type(m).__name__, m.format, m.shape, m.toarray(), m.indices, m.indptr, m.data]

        record(f"_build_matrix({k.tolist()})", build)
    record("_build_matrix(empty)", resmod._build_matrix, np.array([]))
    record("_build_matrix(scalar)", resmod._build_matrix, 0.5)
    record("_build_matrix(list)", resmod._build_matrix, [0.1, 0.2])

    # --- IdealReservoir
    for nx, pf, pi, fl, end_t, nt in (
        (30, 100.0, 8000.0, fluid, 9.0, 120),
        (12, 1000.0, 6000.0, fluid_ideal, 100.0, 60),
        (5, np.array([100.0, 200.0]), 4000.0, None, 1.0, 15),
        (2, 0.0, 1.0, fluid, 4.0, 10),
        (3, 500, 5000, fluid, 2.0, 2),
    ):
        res = IdealReservoir(nx, pf, pi, fl)
        exercise(f"Ideal(nx={nx},nt={nt})", res, times(end_t, nt))
    # irregular, non-monotone and integer time grids
    res = IdealReservoir(8, 100.0, 8000.0, fluid)
    exercise("Ideal(irregular)", res, np.array([0.0, 0.001, 0.01, 0.011, 0.5, 0.2, 3.0]))
    res = IdealReservoir(8, 100.0, 8000.0, fluid)
    exercise("Ideal(int-time)", res, np.arange(6))
    # inputs that raise
    for lab, nx, t in (
        ("nx1", 1, times(1.0, 5)),
        ("nx0", 0, times(1.0, 5)),
        ("list-time", 6, [0.0, 0.1, 0.2]),
        ("empty-time", 6, np.array([])),
        ("scalar-time", 6, np.float64(1.0)),
        ("len1-time", 6, np.array([0.0])),
        ("2d-time", 6, np.array([[0.0, 0.1], [0.2, 0.4]])),
        ("nan-time", 6, np.array([0.0, np.nan, 1.0])),
        ("none-time", 6, None),
    ):
        res = IdealReservoir(nx, 100.0, 8000.0, fluid)
        res.recovery = "stale"
        record(f"Ideal.raise[{lab}].simulate", res.simulate, t)
        state(f"Ideal.raise[{lab}]", res)
        record(f"Ideal.raise[{lab}].rf", res.recovery_factor)
        record(f"Ideal.raise[{lab}].rf_density", res.recovery_factor, density=True)
        record(f"Ideal.raise[{lab}].interp", lambda res=res: res.recovery_factor_interpolator()(0.05))
    res = IdealReservoir(6, 100.0, 8000.0, None)
    res.simulate(times(1.0, 8))
    record("Ideal.nofluid.rf_density", res.recovery_factor, density=True)
    record("Ideal.nofluid.rf", res.recovery_factor)

    # hand-assigned (inconsistent) state, as a user poking at attributes could produce
    for lab, t, pp in (
        ("empty", np.array([]), np.empty((0, 6))),
        ("time-short", times(1.0, 4), np.ones((5, 6))),
        ("time-long", times(1.0, 6), np.ones((5, 6))),
        ("time-2d", np.ones((5, 6)), np.ones((5, 6))),
        ("time-0d", np.float64(2.0), np.ones((1, 6))),
        ("time-list", [0.0, 0.5, 2.0], np.arange(18.0).reshape(3, 6) ** 2),
        ("one-row", np.array([3.0]), np.ones((1, 6))),
        ("int-pp", np.array([0, 1, 3]), np.arange(18).reshape(3, 6) ** 2),
    ):
        res = IdealReservoir(6, 100.0, 8000.0, fluid)
        res.time, res.pseudopressure = t, pp
        record(f"Ideal.manual[{lab}].rf", res.recovery_factor)
        record(f"Ideal.manual[{lab}].rf_density", res.recovery_factor, density=True)

    # --- SinglePhaseReservoir / TwoPhaseReservoir
    for cls in (SinglePhaseReservoir, TwoPhaseReservoir):
        cn = cls.__name__
        for nx, pf, pi, fl, end_t, nt in (
            (30, 100.0, 8000.0, fluid, 9.0, 120),
            (10, 1000.0, 6000.0, fluid_ideal, 100.0, 50),
            (2, 7000.0, 8000.0, fluid, 4.0, 10),
            (1, 500.0, 8000.0, fluid, 1.0, 6),
            (7, 8000.0, 8000.0, fluid, 1.0, 6),
            (7, 11000.0, 8000.0, fluid, 1.0, 6),
        ):
            res = cls(nx, pf, pi, fl)
            exercise(f"{cn}(nx={nx},pf={pf})", res, times(end_t, nt))
        res = cls(9, 100.0, 8000.0, fluid)
        exercise(f"{cn}(list-time)", res, [0.0, 0.01, 0.05, 0.2, 1.0], full=False)
        for lab, nx, pf, t in (
            ("nx0", 0, 100.0, times(1.0, 5)),
            ("pf-out-of-table", 6, 20000.0, times(1.0, 5)),
            ("pf-negative", 6, -5.0, times(1.0, 5)),
            ("empty-time", 6, 100.0, np.array([])),
            ("scalar-time", 6, 100.0, np.float64(1.0)),
            ("len1-time", 6, 100.0, np.array([0.0])),
            ("nan-time", 6, 100.0, np.array([0.0, np.nan, 1.0])),
            ("none-time", 6, 100.0, None),
        ):
            res = cls(nx, pf, 8000.0, fluid)
            res.recovery = "stale"
            record(f"{cn}.raise[{lab}].simulate", res.simulate, t)
            state(f"{cn}.raise[{lab}]", res)
            record(f"{cn}.raise[{lab}].rf", res.recovery_factor)
            record(f"{cn}.raise[{lab}].interp", lambda res=res: res.recovery_factor_interpolator()(0.05))
        res = cls(6, 100.0, 8000.0, BadAlphaFluid())
        record(f"{cn}.badalpha.simulate", res.simulate, times(1.0, 5))
        try:
            res.simulate(times(1.0, 5))
        except Exception as e:  # noqa: BLE001
            lines.append(f"{cn}.badalpha.msg = {type(e).__name__}: {e}")
        state(f"{cn}.badalpha", res)
        record(f"{cn}.nofluid.simulate", cls(6, 100.0, 8000.0, None).simulate, times(1.0, 5))

    # variable frac-face pressure (SinglePhase only accepts it)
    t = times(16.0, 80)
    pf_series = 8000.0 - 7000.0 * (1 - np.exp(-t))
    res = SinglePhaseReservoir(25, 1000.0, 8000.0, fluid)
    exercise("Single(pf-series)", res, t, {"pressure_fracface": pf_series})
    res = SinglePhaseReservoir(25, 1000.0, 8000.0, fluid)
    record("Single(pf-series-positional).simulate", res.simulate, t, pf_series)
    state("Single(pf-series-positional)", res)
    res = SinglePhaseReservoir(25, 1000.0, 8000.0, fluid)
    record("Single(pf-list).simulate", res.simulate, t[:4], [8000.0, 7000.0, 500.0, 9000.0])
    state("Single(pf-list)", res)
    for lab, pfs in (
        ("short", pf_series[:-1]),
        ("long", np.append(pf_series, 1.0)),
        ("empty", np.array([])),
        ("scalar", 100.0),
        ("out-of-table", np.full(len(t), 1e6)),
        ("nan", np.full(len(t), np.nan)),
    ):
        res = SinglePhaseReservoir(10, 1000.0, 8000.0, fluid)
        res.simulate(times(1.0, 6))
        res.recovery_factor()
        record(f"Single.pf_raise[{lab}].simulate", res.simulate, t, pfs)
        try:
            res.simulate(t, pfs)
        except Exception as e:  # noqa: BLE001
            lines.append(f"Single.pf_raise[{lab}].msg = {type(e).__name__}: {str(e)[:200]}")
        state(f"Single.pf_raise[{lab}]", res)
        record(f"Single.pf_raise[{lab}].rf", res.recovery_factor)
    record("TwoPhase.simulate(pf) signature", TwoPhaseReservoir(6, 100.0, 8000.0, fluid).simulate, t, pf_series)
    record("TwoPhase.Sw_init", lambda: TwoPhaseReservoir(6, 100.0, 8000.0, fluid, 0.2).Sw_init)

    # --- MultiPhaseReservoir
    mp = MultiPhaseReservoir(6, 100.0, 8000.0, fluid, 0.7, 0.1, 0.2)
    record("Multi.fields", lambda: [mp.nx, mp.So_init, mp.Sw_init, mp.Sg_init])
    record("Multi.simulate", mp.simulate, times(1.0, 5))
    record("Multi.rf", mp.recovery_factor)
    record("Multi.fvf_scale", mp.fvf_scale)
    record("Multi.alpha_scaled(1 arg)", mp.alpha_scaled, np.array([0.5]))
    sat = np.zeros(3, dtype=[(s, np.float64) for s in ("So", "Sg", "Sw")])
    record("Multi.alpha_scaled(2 args)", mp.alpha_scaled, np.array([0.5, 0.6, 0.7]), sat)

    class FourArgFluid:
        m_i = np.float64(1.0)

        @staticmethod
        def alpha(m, so=0.5, sg=0.25, sw=0.125):
            return (1.0 + np.asarray(m, dtype=float)) * (1.0 + so) / (2.0 + sg) + sw

    mp4 = MultiPhaseReservoir(6, 100.0, 8000.0, FourArgFluid(), 0.7, 0.1, 0.2)
    sat["So"], sat["Sg"], sat["Sw"] = [0.7, 0.6, 0.5], [0.2, 0.3, 0.1], [0.1, 0.1, 0.4]
    record("Multi4.alpha_scaled", mp4.alpha_scaled, np.array([0.5, 0.6, 0.7]), sat)
    record("Multi4.alpha_scaled(dict)", mp4.alpha_scaled, 0.3, {"So": 0.1, "Sg": 0.2, "Sw": 0.7})
    record("Multi4.alpha_scaled(missing)", mp4.alpha_scaled, 0.3, {"So": 0.1, "Sw": 0.7})
    record("Multi4.alpha_scaled(bad)", mp4.alpha_scaled, 0.3, None)
    record("Multi._step_saturation", lambda: mp._step_saturation(sat, None, None) is NotImplementedError)

    record("repr", lambda: repr(IdealReservoir(3, 1.0, 2.0))[:60])
    record("eq", lambda: IdealReservoir(3, 1.0, 2.0) == IdealReservoir(3, 1.0, 2.0))

    with open(out, "w") as fh:
        fh.write("\n".join(lines) + "\n")


if __name__ == "__main__":
    main(sys.argv[1])
