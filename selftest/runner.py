"""Thorough tier: run a property's check against every mutant / twin of the corpus on scratch copies.

A scratch copy of $BB_REPO/src is made under a fresh mkdtemp directory (outside /repo and /verif),
the variant is built there, `python -m bbstatic check <prop>` is run with BB_REPO pointing at it, and
the directory is removed at once.  Mutants must exit 1 (a named rule fired), twins must exit 0.
A variant whose edit no longer applies to the current tree is skipped and listed.
The verdict on /repo itself comes from the quick part; a corpus mismatch makes the thorough run
fail closed (exit 2, ANALYSIS-ERROR: the machinery is not as sensitive/quiet as recorded), never a VIOLATION.
"""
from __future__ import annotations

import concurrent.futures as cf
import glob
import json
import os
import random
import re
import shutil
import subprocess
import sys
import tempfile

HERE = os.path.dirname(os.path.abspath(__file__))
VERIF = os.path.dirname(HERE)
PY = sys.executable


def _variants(prop):
    from selftest.corpus import CORPUS

    out = []
    for vid, kind, edits in CORPUS.get(prop, []):
        out.append({"id": f"{prop}:{vid}", "kind": kind, "edits": edits, "patch": None})
    for d in sorted(glob.glob(os.path.join(VERIF, "seeded", "*"))):
        mp = os.path.join(d, "meta.json")
        if not os.path.exists(mp):
            continue
        meta = json.load(open(mp))
        if meta.get("expected_undetected"):
            continue  # recorded miss (reason in its meta.json and DESIGN.md 9.6): kept for the record, not asserted
        if meta.get("breaks_property") == prop or prop in (meta.get("also_breaks") or []):
            out.append({"id": "seeded:" + os.path.basename(d), "kind": "mutant", "edits": None, "patch": os.path.join(d, "patch.diff")})
    # generated twin: every module re-emitted by ast.unparse (comments gone, layout and line numbers changed)
    out.append({"id": "generated:reformatted", "kind": "twin", "edits": None, "patch": None, "transform": "unparse"})
    for d in sorted(glob.glob(os.path.join(HERE, "twins", "*"))):
        mp = os.path.join(d, "meta.json")
        if not os.path.exists(mp):
            continue
        meta = json.load(open(mp))
        if prop in meta.get("properties", []):
            out.append({"id": "twin:" + os.path.basename(d), "kind": "twin", "edits": None, "patch": os.path.join(d, "patch.diff")})
    return out


def _run_variant(prop, v, repo):
    d = tempfile.mkdtemp(prefix="bbself_")
    try:
        shutil.copytree(os.path.join(repo, "src"), os.path.join(d, "src"))
        if v.get("transform") == "unparse":
            import ast as _ast

            for root, _dirs, files in os.walk(os.path.join(d, "src")):
                for fn in files:
                    if fn.endswith(".py"):
                        pth = os.path.join(root, fn)
                        text = _ast.unparse(_ast.parse(open(pth).read())) + "\n"
                        open(pth, "w").write(text)
        elif v["patch"]:
            r = subprocess.run(["patch", "-s", "-p1", "-d", d, "--no-backup-if-mismatch"], stdin=open(v["patch"]), capture_output=True, text=True)
            if r.returncode != 0:
                return v["id"], v["kind"], "skipped", "patch does not apply to the current tree", []
        else:
            for rel, old, new in v["edits"]:
                p = os.path.join(d, rel)
                s = open(p).read()
                if s.count(old) != 1:
                    return v["id"], v["kind"], "skipped", f"pattern occurs {s.count(old)} times in {rel}", []
                open(p, "w").write(s.replace(old, new))
        # the variant must still compile
        for root, _dirs, files in os.walk(os.path.join(d, "src")):
            for fn in files:
                if fn.endswith(".py"):
                    try:
                        compile(open(os.path.join(root, fn)).read(), fn, "exec")
                    except SyntaxError as e:
                        return v["id"], v["kind"], "skipped", f"variant does not compile: {e}", []
        env = dict(os.environ, BB_REPO=d, BB_OUT_DIR=d, VERIF_TIER="quick")
        r = subprocess.run([PY, "-m", "bbstatic", "check", prop, "--tier", "quick"], cwd=VERIF, env=env, capture_output=True, text=True, timeout=900)
        rules = sorted(set(re.findall(r"^  rule (\S+)", r.stdout, re.M)))
        if v["kind"] == "mutant":
            ok = r.returncode == 1
        else:
            ok = r.returncode == 0
        detail = "" if ok else (r.stdout[-400:] + r.stderr[-200:])
        return v["id"], v["kind"], "ok" if ok else f"exit {r.returncode}", detail, rules
    finally:
        shutil.rmtree(d, ignore_errors=True)


def run(prop, seed):
    repo = os.environ.get("BB_REPO", "/repo")
    vs = _variants(prop)
    random.Random(seed).shuffle(vs)
    results = []
    with cf.ThreadPoolExecutor(max_workers=min(16, os.cpu_count() or 4)) as ex:
        for res in ex.map(lambda v: _run_variant(prop, v, repo), vs):
            results.append(res)
    mut = [r for r in results if r[1] == "mutant" and r[2] != "skipped"]
    twi = [r for r in results if r[1] == "twin" and r[2] != "skipped"]
    bad = [r for r in results if r[2] not in ("ok", "skipped")]
    cov = {
        "selftest_mutants_total": len(mut),
        "selftest_mutants_fired": sum(r[2] == "ok" for r in mut),
        "selftest_twins_total": len(twi),
        "selftest_twins_silent": sum(r[2] == "ok" for r in twi),
        "selftest_skipped": [f"{r[0]}: {r[3]}" for r in results if r[2] == "skipped"],
        "selftest_rules_fired": {r[0]: r[4] for r in mut if r[2] == "ok"},
        "selftest_mismatches": [f"{r[0]} ({r[1]}): {r[2]}" for r in bad],
    }
    print(f"selftest {prop}: {cov['selftest_mutants_fired']}/{cov['selftest_mutants_total']} mutants fired, "
          f"{cov['selftest_twins_silent']}/{cov['selftest_twins_total']} twins silent, {len(cov['selftest_skipped'])} skipped")
    for r in bad:
        print(f"ANALYSIS-ERROR selftest mismatch {r[0]} ({r[1]}): {r[2]}\n{r[3]}")
    return cov, (2 if bad else 0)


if __name__ == "__main__":
    sys.path.insert(0, VERIF)
    props = sys.argv[1:] or sorted(__import__("selftest.corpus", fromlist=["CORPUS"]).CORPUS)
    rc = 0
    for p in props:
        _cov, e = run(p, 0)
        rc = rc or e
    sys.exit(rc)
